"""Engine Chan: generators, a Python mirror of the Coq model used ONLY to generate enabled
label sequences and to classify known findings, Gallina printers and shrinkers.
The authoritative model is coq/theories/Chan/Model*.v; every case is compared against it."""
import copy
import glob
import json
import os

ROOT = os.path.dirname(os.path.dirname(os.path.abspath(__file__)))

# ---------------------------------------------------------------------------- C16: mpsc mirror


class Mpsc:
    """mirror of Chan/ModelMpsc.v `step` (same branch structure)"""

    def __init__(self, cap, progs, spurious=False, cancel=False, fixed=True):
        # fixed=True (default): the code since /repo commit 904d17adb85 (wake_sender wakes every
        # registered sender); fixed=False: the code before it (one waker popped per recv)
        self.cap, self.spurious, self.cancel, self.fixed = cap, spurious, cancel, fixed
        self.buf, self.sw, self.rw = [], [], False
        self.rx, self.rx_woken, self.rx_done = "open", True, False
        self.tasks = []
        for p in progs:
            t = {"cur": [], "rest": [list(st) for st in p], "alive": True, "woken": True}
            self.advance(t)
            self.tasks.append(t)
        self.sent, self.recvd = [], []
        self.spurious_polls = 0
        self.cancelled = 0
        self.closed_senders = 0

    @staticmethod
    def advance(t):
        if not t["cur"] and t["rest"]:
            t["cur"] = t["rest"].pop(0)

    @staticmethod
    def finished(t):
        return not t["cur"] and not t["rest"]

    def full(self):
        return self.cap is not None and self.cap <= len(self.buf)

    def wake(self, ws):
        for w in ws:
            if w == -1:
                self.rx_woken = True
            else:
                self.tasks[w]["woken"] = True

    def enabled(self, l):
        k = l[0]
        if k in "pdkynz" and l[1] >= len(self.tasks):
            return False
        if k == "p":
            t = self.tasks[l[1]]
            return t["alive"] and not self.finished(t) and (t["woken"] or self.spurious)
        if k == "r":
            return self.rx != "dropped" and (self.spurious or (self.rx_woken and not self.rx_done))
        if k == "d":
            t = self.tasks[l[1]]
            return t["alive"] and (self.finished(t) or self.cancel)
        if k == "k":
            t = self.tasks[l[1]]
            return t["alive"] and self.finished(t)
        if k == "y":
            t = self.tasks[l[1]]
            return t["alive"] and ((t["woken"] and not self.finished(t)) or self.spurious)
        if k == "n":
            return self.tasks[l[1]]["alive"]
        if k == "z":
            t = self.tasks[l[1]]
            return self.cancel and t["alive"] and l[2] < len(t["cur"])
        if k == "c":
            return self.rx == "open" and (self.rx_woken or self.spurious)
        if k == "x":
            return self.rx != "dropped"
        return False

    def labels(self):
        ls = [["p", i] for i in range(len(self.tasks))] + [["r"]]
        ls += [["d", i] for i in range(len(self.tasks))] + [["k", i] for i in range(len(self.tasks))]
        ls += [["c"], ["x"]]
        ls += [["y", i, 90 + i] for i in range(len(self.tasks))]
        if len(self.tasks) < 4:
            ls += [["n", i, [[70 + len(self.tasks)]]] for i in range(len(self.tasks))]
        ls += [["z", i, j] for i in range(len(self.tasks)) for j in range(len(self.tasks[i]["cur"]))]
        return [l for l in ls if self.enabled(l)]

    def step(self, l):
        if not self.enabled(l):
            return {"dis": True}
        k = l[0]
        if k == "p":
            t = self.tasks[l[1]]
            if not t["woken"]:
                self.spurious_polls += 1
            res, rem, ws = [], [], []
            for x in t["cur"]:
                if self.rx != "open":
                    res.append("C")
                elif self.full():
                    self.sw.insert(0, l[1])
                    res.append("F")
                    rem.append(x)
                else:
                    self.buf.append(x)
                    self.sent.append(x)
                    if self.rw:
                        ws.append(-1)
                    self.rw = False
                    res.append("S")
            t["cur"] = rem
            self.advance(t)
            t["woken"] = (not rem) and not self.finished(t)
            self.wake(ws)
            return {"s": res, "fin": self.finished(t), "w": ws}
        if k == "r":
            if self.buf:
                v = self.buf.pop(0)
                if self.fixed:
                    ws, self.sw = list(reversed(self.sw)), []
                else:
                    ws = [self.sw.pop(0)] if self.sw else []
                self.recvd.append(v)
                self.rx_woken = True
                self.wake(ws)
                return {"r": ["some", v], "w": ws}
            weak = sum(1 for t in self.tasks if t["alive"]) if self.rx == "open" else 0
            self.rx_woken = False
            if weak == 0:
                self.rx_done = True
                return {"r": ["none"], "w": []}
            self.rw = True
            return {"r": ["pend"], "w": []}
        if k == "d":
            t = self.tasks[l[1]]
            if not self.finished(t):
                self.cancelled += 1
            t["cur"], t["rest"], t["alive"] = [], [], False
            ws = []
            if self.rx == "open":
                if self.rw:
                    ws = [-1]
                self.rw = False
            self.wake(ws)
            return {"w": ws}
        if k == "y":
            if self.rx != "open":
                return {"y": "C", "w": []}
            if self.full():
                return {"y": "F", "w": []}
            self.buf.append(l[2])
            self.sent.append(l[2])
            ws = [-1] if self.rw else []
            self.rw = False
            self.wake(ws)
            return {"y": "S", "w": ws}
        if k == "n":
            t = {"cur": [], "rest": [list(st) for st in l[2]], "alive": True, "woken": True}
            self.advance(t)
            self.tasks.append(t)
            return {"w": []}
        if k == "z":
            t = self.tasks[l[1]]
            if not t["woken"]:
                self.cancelled += 1
            t["cur"].pop(l[2])
            self.advance(t)
            t["woken"] = not self.finished(t)
            return {"w": []}
        if k == "k":
            # close_this_sender, since /repo commit fdb5498e919: wake_receiver like Drop
            t = self.tasks[l[1]]
            t["cur"], t["rest"], t["alive"] = [], [], False
            self.closed_senders += 1
            ws = []
            if self.rx == "open":
                if self.rw:
                    ws = [-1]
                self.rw = False
            self.wake(ws)
            return {"w": ws}
        # close / drop of the receiver
        ws = list(reversed(self.sw))
        self.sw, self.rw = [], False
        self.rx = "closed" if k == "c" else "dropped"
        self.wake(ws)
        return {"w": ws}

    def stranded(self):
        if any(t["alive"] and t["woken"] and not self.finished(t) for t in self.tasks):
            return False
        if self.rx != "dropped" and self.rx_woken and not self.rx_done:
            return False
        if not any(t["alive"] and not t["woken"] and t["cur"] for t in self.tasks):
            return False
        return not self.full()


def _rx_stranded(self):
    if any(t["alive"] and t["woken"] and not self.finished(t) for t in self.tasks):
        return False
    if self.rx != "open" or self.rx_woken or self.rx_done:
        return False
    return bool(self.buf) or not any(t["alive"] for t in self.tasks)


Mpsc.rx_stranded = _rx_stranded


def mpsc_run(case):
    """(obs list, ever stranded, mirror) of the Python mirror on a case"""
    m = Mpsc(case["cap"], case["progs"], case.get("spurious", False), case.get("cancel", False))
    obs, stranded = [], False
    m.ever_rx_stranded = False
    for l in case["labels"]:
        obs.append(m.step(l))
        stranded = stranded or m.stranded()
        m.ever_rx_stranded = m.ever_rx_stranded or m.rx_stranded()
    return obs, stranded, m


def mpsc_all_enabled(case):
    m = Mpsc(case["cap"], case["progs"], case.get("spurious", False), case.get("cancel", False))
    for l in case["labels"]:
        if not m.enabled(l):
            return False
        m.step(l)
    return True


def mk_case(cap, progs, spurious, cancel, labels, src):
    return {"k": "mpsc", "cap": cap, "progs": progs, "spurious": spurious, "cancel": cancel,
            "labels": labels, "src": src}


def gen_progs(rng, ntasks, two_prob_num):
    progs, nxt = [], 1
    for _ in range(ntasks):
        p = []
        for _ in range(rng.range(1, 3)):
            k = 2 if rng.chance(two_prob_num, 10) else 1
            p.append(list(range(nxt, nxt + k)))
            nxt += k
        progs.append(p)
    return progs


def random_walk(rng, cap, progs, spurious, cancel, maxlen):
    m = Mpsc(cap, progs, spurious, cancel)
    labels = []
    for _ in range(maxlen):
        en = m.labels()
        if not en:
            break
        # weights: polls dominate; close/drop of the receiver are rare
        pool = []
        for l in en:
            w = {"p": 16, "r": 20, "d": 4, "k": 2, "c": 2, "x": 1, "y": 3, "n": 2, "z": 3}[l[0]]
            if l[0] == "p" and not m.tasks[l[1]]["woken"]:
                w = 3
            if l[0] == "d" and not m.finished(m.tasks[l[1]]):
                w = 1
            pool += [l] * w
        l = rng.choice(pool)
        m.step(l)
        labels.append(l)
    return labels


def enum_walks(cap, progs, spurious, cancel, maxlen, limit, kinds="prdkcx"):
    """all maximal enabled label sequences of length <= maxlen (DFS), at most `limit`"""
    out = []

    def dfs(m, labels):
        if len(out) >= limit:
            return
        en = [l for l in m.labels() if l[0] in kinds]
        if len(labels) >= maxlen or not en:
            out.append(list(labels))
            return
        for l in en:
            m2 = copy.deepcopy(m)
            m2.step(l)
            labels.append(l)
            dfs(m2, labels)
            labels.pop()

    dfs(Mpsc(cap, progs, spurious, cancel), [])
    return out


def load_corpus(prop):
    cases = []
    for f in sorted(glob.glob(os.path.join(ROOT, "corpus", prop, "*.json"))):
        c = json.load(open(f))
        c = c.get("case", c)
        c["src"] = "corpus:" + os.path.basename(f)
        cases.append(c)
    return cases


def gen_mpsc(rng, tier, n):
    cases = load_corpus("C16")
    if tier == "thorough":
        # bounded-exhaustive: every enabled label sequence up to the stated length
        fams = [
            (1, [[[1]], [[2]]], False, False, 10, "prdcx"),
            (1, [[[1]], [[2]]], False, False, 9, "prdk"),
            (1, [[[1]], [[2]]], False, False, 7, "pryn"),
            (1, [[[1, 2]], [[3]]], False, True, 7, "prz"),
            (1, [[[1, 2]], [[3]]], False, False, 10, "prd"),
            (1, [[[9]], [[3]], [[1, 2]]], False, False, 10, "pr"),
            (2, [[[1, 2]], [[3], [4]]], False, False, 10, "pr"),
            (2, [[[1], [2]], [[3]], [[4]]], False, False, 9, "prdcx"),
            (1, [[[1], [2]], [[3]]], True, False, 7, "prc"),
            (1, [[[1], [2]], [[3]]], False, True, 8, "prdx"),
            (None, [[[1, 2]], [[3]]], False, False, 8, "prdcx"),
        ]
        for cap, progs, sp, ca, L, kinds in fams:
            for labels in enum_walks(cap, progs, sp, ca, L, 6000, kinds):
                cases.append(mk_case(cap, progs, sp, ca, labels, "exh"))
        n = max(n, 4000)
    for i in range(n):
        r = rng.below(20)
        cap = None if r == 0 else (1 if r < 12 else 2)
        nt = rng.range(1, 3)
        mode = rng.below(8)
        spurious, cancel = mode == 5 or mode == 7, mode == 6 or mode == 7
        progs = gen_progs(rng, nt, 0 if mode in (3, 4) else 4)
        labels = random_walk(rng, cap, progs, spurious, cancel, rng.range(4, 16))
        cases.append(mk_case(cap, progs, spurious, cancel, labels, "rnd"))
    return cases


# ---------------------------------------------------------------------------- Gallina printing


def g_nat(n):
    return "%d%%nat" % n


def g_label(l):
    k = l[0]
    if k == "p":
        return "Poll %s" % g_nat(l[1])
    if k == "d":
        return "DropSender %s" % g_nat(l[1])
    if k == "k":
        return "CloseSender %s" % g_nat(l[1])
    if k == "y":
        return "TrySend %s %d" % (g_nat(l[1]), l[2])
    if k == "n":
        return "CloneSender %s %s" % (g_nat(l[1]), g_lst([g_lst(["%d" % x for x in st]) for st in l[2]]))
    if k == "z":
        return "CancelSend %s %s" % (g_nat(l[1]), g_nat(l[2]))
    return {"r": "PollRx", "c": "CloseRx", "x": "DropRx"}[k]


def g_wake(w):
    return "WRecv" if w == -1 else "WSend %s" % g_nat(w)


def g_lst(xs):
    return "[" + "; ".join(xs) + "]"


def g_obs(o):
    if o.get("dis"):
        return "ODisabled"
    ws = g_lst([g_wake(w) for w in o["w"]])
    if "s" in o:
        rs = g_lst([{"S": "SSent", "F": "SFull", "C": "SClosed"}[r] for r in o["s"]])
        return "OPoll %s %s %s" % (rs, "true" if o["fin"] else "false", ws)
    if "y" in o:
        return "OTry %s %s" % ({"S": "SSent", "F": "SFull", "C": "SClosed"}[o["y"]], ws)
    if "r" in o:
        r = o["r"]
        rr = "(RSome %d)" % r[1] if r[0] == "some" else {"none": "RNone", "pend": "RPending"}[r[0]]
        return "ORecv %s %s" % (rr, ws)
    return "OAct %s" % ws


def g_progs(progs):
    return g_lst([g_lst([g_lst(["%d" % x for x in st]) for st in p]) for p in progs])


def g_cap(cap):
    return "None" if cap is None else "(Some %s)" % g_nat(cap)


def mpsc_term(case, res):
    if "obs" not in res or len(res["obs"]) != len(case["labels"]):
        return 3  # panic / hang / crash
    try:
        obs = g_lst([g_obs(o) for o in res["obs"]])
    except Exception:
        return 3
    return "(chk16 %s %s %s %s %s %s)" % (
        g_cap(case["cap"]), g_progs(case["progs"]),
        "true" if case.get("spurious") else "false", "true" if case.get("cancel") else "false",
        g_lst([g_label(l) for l in case["labels"]]), obs)


# ---------------------------------------------------------------------------- shrinking, stats


def shrink_mpsc(case):
    cands = []
    ls = case["labels"]
    for i in range(len(ls) - 1, -1, -1):
        c = dict(case, labels=ls[:i] + ls[i + 1:], src="shrunk")
        cands.append(c)
    for ti, p in enumerate(case["progs"]):
        for si, st in enumerate(p):
            if len(st) > 1:
                for k in range(len(st)):
                    p2 = [list(s) for s in p]
                    p2[si] = st[:k] + st[k + 1:]
                    cands.append(dict(case, progs=case["progs"][:ti] + [p2] + case["progs"][ti + 1:], src="shrunk"))
        if len(p) > 1:
            cands.append(dict(case, progs=case["progs"][:ti] + [p[:-1]] + case["progs"][ti + 1:], src="shrunk"))
    if case["cap"] == 2:
        cands.append(dict(case, cap=1, src="shrunk"))
    return [c for c in cands if mpsc_all_enabled(c)]


def mpsc_class(case):
    """structural class of a case with respect to the stale-waker findings"""
    obs, stranded, m = mpsc_run(case)
    two = any(len(st) >= 2 for p in case["progs"] for st in p)
    return {"stranded": stranded, "two": two, "spurious_polls": m.spurious_polls,
            "cancelled": m.cancelled, "obs": obs, "rx_stranded": m.ever_rx_stranded,
            "closed_senders": m.closed_senders}


def mpsc_distribution(cases, results):
    d = {"cap": {}, "ntasks": {}, "policy": {}, "labels": {}, "len": {}, "src": {},
         "two_outstanding": 0, "stranded_in_model": 0, "full_results": 0, "wakes": 0, "closed_results": 0}
    for c, r in zip(cases, results):
        d["cap"][str(c["cap"])] = d["cap"].get(str(c["cap"]), 0) + 1
        d["ntasks"][str(len(c["progs"]))] = d["ntasks"].get(str(len(c["progs"])), 0) + 1
        pol = ("spurious" if c.get("spurious") else "") + ("+cancel" if c.get("cancel") else "") or "strict"
        d["policy"][pol] = d["policy"].get(pol, 0) + 1
        d["len"][str(len(c["labels"]))] = d["len"].get(str(len(c["labels"])), 0) + 1
        src = c.get("src", "?").split(":")[0]
        d["src"][src] = d["src"].get(src, 0) + 1
        for l in c["labels"]:
            d["labels"][l[0]] = d["labels"].get(l[0], 0) + 1
        if any(len(st) >= 2 for p in c["progs"] for st in p):
            d["two_outstanding"] += 1
        for o in r.get("obs", []):
            d["full_results"] += sum(1 for x in o.get("s", []) if x == "F")
            d["closed_results"] += sum(1 for x in o.get("s", []) if x == "C")
            d["wakes"] += len(o.get("w", []))
        _, st, mm = mpsc_run(c)
        if st:
            d["stranded_in_model"] += 1
        if mm.ever_rx_stranded:
            d["rx_stranded_in_model"] = d.get("rx_stranded_in_model", 0) + 1
    return d


# ---------------------------------------------------------------------------- C15: MergeSource


def merge_case(scripts, tags, src):
    srcs = [{"tag": t, "script": sc} for t, sc in zip(tags, scripts)]
    polls = min(60, sum(len(sc) for sc in scripts) + len(scripts) + 2)
    return {"k": "merge", "srcs": srcs, "polls": polls, "src": src}


def number_items(scripts):
    """give every Rdy a distinct item value"""
    out, nxt = [], 1
    for sc in scripts:
        o = []
        for st in sc:
            if st[0] == "r":
                o.append(["r", nxt])
                nxt += 1
            else:
                o.append([st[0]])
        out.append(o)
    return out


def all_scripts(maxlen):
    res = [[]]
    frontier = [[]]
    for _ in range(maxlen):
        frontier = [s + [[k]] for s in frontier for k in "rpe"]
        res += frontier
    return res


def product(xs, k):
    if k == 0:
        yield []
        return
    for x in xs:
        for rest in product(xs, k - 1):
            yield [x] + rest


def gen_merge(rng, tier, n):
    cases = load_corpus("C15")
    tagsets = [[5], [7, 3], [2, 9, 4], [8, 1, 6, 0]]
    if tier == "thorough":
        for k, maxlen in ((1, 6), (2, 4), (3, 2), (4, 2)):
            scs = all_scripts(maxlen)
            for combo in product(scs, k):
                cases.append(merge_case(number_items(combo), tagsets[k - 1], "exh"))
    cases.append(merge_case([], [], "rnd"))
    for _ in range(n):
        k = rng.choice([1, 2, 2, 3, 3, 3, 4, 4, 5])
        tags = rng.sample(list(range(0, 12)), k)
        dens = rng.choice([0, 1, 3, 6])  # pending density (out of 10)
        scripts = []
        for _ in range(k):
            sc = []
            for _ in range(rng.range(0, 6)):
                r = rng.below(10)
                if r < dens:
                    sc.append(["p"])
                elif rng.chance(1, 12):
                    sc.append(["e"])
                else:
                    sc.append(["r"])
            scripts.append(sc)
        cases.append(merge_case(number_items(scripts), tags, "rnd"))
    return cases


def g_sstep(st):
    return {"r": "Rdy %d" % (st[1] if len(st) > 1 else 0), "p": "Pend", "e": "End"}[st[0]]


def g_srcs(srcs):
    return g_lst(["mkSrc %d %s" % (s["tag"], g_lst([g_sstep(st) for st in s["script"]])) for s in srcs])


def g_mobs(o):
    r = o["r"]
    if r[0] == "rdy":
        rr = "MReady (%d, %d)" % (r[1], r[2])
    elif r[0] == "none":
        rr = "MNone"
    elif r[0] == "pend":
        rr = "MPending"
    else:
        rr = "MPanic"
    return "(%s, %s, %s, %s)" % (rr, g_nat(o["cur"]), g_nat(o["len"]), g_lst(["%d" % t for t in o["polled"]]))


def merge_term(case, res):
    if "obs" not in res or len(res["obs"]) != case["polls"]:
        return 3
    return "(chk15 %s %s)" % (g_srcs(case["srcs"]), g_lst([g_mobs(o) for o in res["obs"]]))


def shrink_merge(case):
    cands = []
    srcs = case["srcs"]
    for i in range(len(srcs)):
        cands.append(dict(case, srcs=srcs[:i] + srcs[i + 1:], src="shrunk"))
    for i, s in enumerate(srcs):
        sc = s["script"]
        for j in range(len(sc)):
            s2 = dict(s, script=sc[:j] + sc[j + 1:])
            cands.append(dict(case, srcs=srcs[:i] + [s2] + srcs[i + 1:], src="shrunk"))
    if case["polls"] > 1:
        cands.append(dict(case, polls=case["polls"] - 1, src="shrunk"))
    return cands


def merge_distribution(cases, results):
    d = {"nsrc": {}, "steps": {"r": 0, "p": 0, "e": 0}, "src": {}, "results": {},
         "ended_mid_round": 0, "script_len": {}}
    for c, r in zip(cases, results):
        k = str(len(c["srcs"]))
        d["nsrc"][k] = d["nsrc"].get(k, 0) + 1
        d["src"][c.get("src", "?").split(":")[0]] = d["src"].get(c.get("src", "?").split(":")[0], 0) + 1
        for s in c["srcs"]:
            d["script_len"][str(len(s["script"]))] = d["script_len"].get(str(len(s["script"])), 0) + 1
            for st in s["script"]:
                d["steps"][st[0]] += 1
        prev = len(c["srcs"])
        mid = False
        for o in r.get("obs", []):
            d["results"][o["r"][0]] = d["results"].get(o["r"][0], 0) + 1
            if 0 < o["len"] < prev:
                mid = True
            prev = o["len"]
        d["ended_mid_round"] += 1 if mid else 0
    return d


# ---------------------------------------------------------------------------- C27: WakeState


def gen_wake(rng, tier, n):
    """schedules: wake i fires the occ-th time program point p (0..9) is reached.
    All single placements and all unordered pairs (exhaustive), plus random triples."""
    cases = load_corpus("C27")
    occs = 3
    places = [(p, o) for p in range(10) for o in range(occs)]
    cases.append({"k": "wake", "wakes": [], "src": "exh"})
    for a in places:
        cases.append({"k": "wake", "wakes": [list(a)], "src": "exh"})
    pair_places = places if tier == "thorough" else [(p, o) for p in range(10) for o in range(2)]
    for i, a in enumerate(pair_places):
        for b in pair_places[i:]:
            cases.append({"k": "wake", "wakes": [list(a), list(b)], "src": "exh"})
    # the same placements with an executor that polls the runner INSIDE the task waker's wake()
    # (a poll lands between the statements of wake_by_ref that follow task_waker.wake()); only
    # wakes fired while the executor is idle (point 9) are affected, so every inline schedule
    # has at least one, and no two wakes share an idle placement
    for a in places:
        if a[0] == 9:
            cases.append({"k": "wake", "wakes": [list(a)], "inline": True, "src": "exh-inline"})
    for a in pair_places:
        for b in pair_places:
            if b[0] == 9 and a != b and (a[0] != 9 or a < b):
                cases.append({"k": "wake", "wakes": [list(a), list(b)], "inline": True, "src": "exh-inline"})
    k = n if tier == "quick" else n * 20
    for j in range(k):
        m = rng.range(3, 5)
        ws, seen9 = [], set()
        for _ in range(m):
            w = (rng.below(10), rng.below(4))
            if w[0] == 9:
                if w in seen9:
                    continue
                seen9.add(w)
            ws.append(list(w))
        inline = j % 2 == 1
        if inline and not seen9:
            ws.append([9, rng.below(2)])
        cases.append({"k": "wake", "wakes": ws, "inline": inline, "src": "rnd-inline" if inline else "rnd"})
    return cases


def gen_wake2(rng, tier, n):
    """schedules for the extended model: producer pushes into a real tokio channel polled by
    the tick body / raw wakes, at 11 program points (10 = inside the body after the source
    poll), ticks that defer (schedule_subgraph(true) from the body), optional inline executor"""
    cases = []
    occs = 2
    places = [(p, o) for p in range(11) for o in range(occs)]
    for a in places:
        for kind in ("push", "wake"):
            cases.append({"k": "wake2", "acts": [[a[0], a[1], kind]], "defers": [], "inline": False, "src": "exh"})
            if a[0] == 9:
                cases.append({"k": "wake2", "acts": [[a[0], a[1], kind]], "defers": [], "inline": True, "src": "exh-inline"})
    for d in ([0], [1], [0, 1]):
        cases.append({"k": "wake2", "acts": [], "defers": d, "inline": False, "src": "exh"})
        for a in places:
            cases.append({"k": "wake2", "acts": [[a[0], a[1], "push"]], "defers": d, "inline": False, "src": "exh"})
    if tier == "thorough":
        for i, a in enumerate(places):
            for b in places[i:]:
                cases.append({"k": "wake2", "acts": [[a[0], a[1], "push"], [b[0], b[1], "push"]], "defers": [], "inline": False, "src": "exh"})
    k = n if tier == "quick" else n * 20
    for j in range(k):
        acts, seen9 = [], set()
        for _ in range(rng.range(2, 5)):
            w = (rng.below(11), rng.below(3))
            if w[0] == 9:
                if w in seen9:
                    continue
                seen9.add(w)
            acts.append([w[0], w[1], "push" if rng.chance(2, 3) else "wake"])
        inline = j % 2 == 1
        if inline and not seen9:
            acts.append([9, rng.below(2), "push"])
        defers = [t for t in range(4) if rng.chance(1, 4)]
        cases.append({"k": "wake2", "acts": acts, "defers": defers, "inline": inline,
                      "src": "rnd-inline" if inline else "rnd"})
    return cases


def g_ev2(e):
    q = "ModelWake2Chk."
    if e[0] == "p":
        return q + "EPoint %s" % g_nat(e[1])
    if e[0] == "w":
        return q + "EAct %s" % g_nat(e[1])
    if e[0] == "t":
        return q + "ETick %s" % g_nat(e[1])
    return q + {"d": "EDefer", "park": "EPark"}.get(e[0], "EBad")


def wake2_term(case, res):
    if "log" not in res:
        return 3
    acts = g_lst(["(%s, %s, %s)" % (g_nat(a[0]), g_nat(a[1]), "true" if a[2] == "push" else "false") for a in case["acts"]])
    return "(ModelWake2Chk.chk27b %s %s %s)" % (acts, g_lst([g_nat(d) for d in case["defers"]]),
                                                g_lst([g_ev2(e) for e in res["log"]]))


def shrink_wake2(case):
    ws = case["acts"]
    cands = [dict(case, acts=ws[:i] + ws[i + 1:], src="shrunk") for i in range(len(ws))]
    ds = case["defers"]
    cands += [dict(case, defers=ds[:i] + ds[i + 1:], src="shrunk") for i in range(len(ds))]
    return cands


def g_wevent(e):
    if e[0] == "p":
        return "EPoint %s" % g_nat(e[1])
    if e[0] == "w":
        return "EWake %s" % g_nat(e[1])
    return {"t": "ETick", "park": "EPark"}.get(e[0], "EBad")


def wake_term(case, res):
    if "log" not in res:
        return 3
    wakes = g_lst(["(%s, %s)" % (g_nat(w[0]), g_nat(w[1])) for w in case["wakes"]])
    return "(chk27 %s %s)" % (wakes, g_lst([g_wevent(e) for e in res["log"]]))


def shrink_wake(case):
    ws = case["wakes"]
    cands = [dict(case, wakes=ws[:i] + ws[i + 1:], src="shrunk") for i in range(len(ws))]
    for i, w in enumerate(ws):
        if w[1] > 0:
            cands.append(dict(case, wakes=ws[:i] + [[w[0], w[1] - 1]] + ws[i + 1:], src="shrunk"))
    return cands


def wake_distribution(cases, results):
    d = {"nwakes": {}, "points": {}, "occ": {}, "src": {}, "ticks": {}, "fired": 0, "unfired": 0,
         "inline_executor": 0, "inline_wakes_fired_while_idle": 0}
    d["wake2_cases"], d["wake2_pushes"], d["wake2_defer_ticks"], d["wake2_items_consumed"] = 0, 0, 0, 0
    for c, r in zip(cases, results):
        if c["k"] == "wake2":
            d["wake2_cases"] += 1
            d["wake2_pushes"] += sum(1 for a in c["acts"] if a[2] == "push")
            d["wake2_defer_ticks"] += sum(1 for e in r.get("log", []) if e[0] == "d")
            d["wake2_items_consumed"] += sum(e[1] for e in r.get("log", []) if e[0] == "t")
            if c.get("inline"):
                d["inline_executor"] += 1
            d["src"][c.get("src", "?")] = d["src"].get(c.get("src", "?"), 0) + 1
            continue
        d["nwakes"][str(len(c["wakes"]))] = d["nwakes"].get(str(len(c["wakes"])), 0) + 1
        d["src"][c.get("src", "?")] = d["src"].get(c.get("src", "?"), 0) + 1
        for w in c["wakes"]:
            d["points"][str(w[0])] = d["points"].get(str(w[0]), 0) + 1
            d["occ"][str(w[1])] = d["occ"].get(str(w[1]), 0) + 1
        log = r.get("log", [])
        if c.get("inline"):
            d["inline_executor"] += 1
            fired = {e[1] for e in log if e[0] == "w"}
            d["inline_wakes_fired_while_idle"] += sum(1 for i, w in enumerate(c["wakes"]) if w[0] == 9 and i in fired)
        t = sum(1 for e in log if e[0] == "t")
        d["ticks"][str(t)] = d["ticks"].get(str(t), 0) + 1
        d["fired"] += sum(1 for e in log if e[0] == "w")
        d["unfired"] += len(r.get("unfired", []))
    return d
