"""Lattice engine (E1), shipped bimorphisms (C07): case generation, Gallina printing, shrinking.
Harness: harness/h_morph (registered names "<shape>|<code of A>|<code of B>@<rust>"), model:
coq/theories/Lattice/Morph.v.  Value conventions are those of tools/lat.py."""
import glob
import json
import os

from tools import lat
from tools.vlib import ROOT, g_bool


def parse_name4(name):
    """(shape, code of A, code of B, code of the A-delta, code of the B-delta); the deltas may be
    another representation (singleton / array / vec / option) of the same lattice"""
    f = name.split("@")[0].split("|")
    sh, ta, tb = f[0], f[1], f[2]
    tda, tdb = (f[3], f[4]) if len(f) == 5 else (ta, tb)
    return tuple(lat.parse_sexp(x) for x in (sh, ta, tb, tda, tdb))


def parse_name(name):
    return parse_name4(name)[:3]


def growable(rep):
    return rep in ("Hash", "BTree", "Vec")


def coq_shape(sh, ta, tb):
    sh, ta, tb = lat.norm(sh), lat.norm(ta), lat.norm(tb)
    if sh[0] == "Cart":
        return "BCart"
    if sh[0] == "Pair":
        return "(BPair %s %s)" % (lat.coq_ty(ta), lat.coq_ty(tb))
    if sh[0] == "Keyed":
        return "(BKeyed %s)" % coq_shape(sh[1], ta[2], tb[2])
    raise ValueError(sh)


def out_ty(sh, ta, tb):
    sh, ta, tb = lat.norm(sh), lat.norm(ta), lat.norm(tb)
    if sh[0] == "Cart":
        return ("Set", "Hash")
    if sh[0] == "Pair":
        return ("Pair", ta, tb)
    if sh[0] == "Keyed":
        return ("Map", "Hash", out_ty(sh[1], ta[2], tb[2]))
    raise ValueError(sh)


def has_pair(sh):
    sh = lat.norm(sh)
    return sh[0] == "Pair" or (sh[0] == "Keyed" and has_pair(sh[1]))


def keyed_over_pair(sh):
    sh = lat.norm(sh)
    return sh[0] == "Keyed" and has_pair(sh[1])


def depth(sh):
    sh = lat.norm(sh)
    return 1 + depth(sh[1]) if sh[0] == "Keyed" else 0


def bottom_of(t):
    """a bottom value of code t, or the string 'none' if the code has no bottom value"""
    t = lat.norm(t)
    h = t[0]
    if h == "Unit":
        return None
    if h == "Max":
        return 0
    if h == "Min":
        return {"u8": 255, "bool": 1}.get(t[1], "none")
    if h == "Vec":
        return []
    if h == "Set":
        # fixed-size set representations have no bottom value
        return [] if (growable(t[1]) or t[1] == "Option") else "none"
    if h == "Map":
        rep = t[1]
        if growable(rep) or rep == "Option":
            return []
        inner = bottom_of(t[2])
        if inner == "none":
            return "none"
        n = 1 if rep == "Singleton" else int(rep[5:])
        return [[i, json.loads(json.dumps(inner))] for i in range(n)]
    if h == "Bot":
        return None
    if h == "Top":
        b = bottom_of(t[1])
        return "none" if b == "none" else [b]
    if h in ("Pair", "Dom"):
        a, b = bottom_of(t[1]), bottom_of(t[2])
        return "none" if "none" in (a, b) else [a, b]
    return "none"


def is_bot(t, v):
    t = lat.norm(t)
    h = t[0]
    if h == "Unit":
        return True
    if h == "Max":
        return v == 0
    if h == "Min":
        return v == {"u8": 255, "bool": 1}.get(t[1], -1)
    if h in ("Set", "Vec"):
        return len(v) == 0
    if h == "Map":
        return all(is_bot(t[2], x) for _, x in v)
    if h == "Bot":
        return v is None or is_bot(t[1], v[0])
    if h == "Top":
        return v is not None and is_bot(t[1], v[0])
    if h in ("Pair", "Dom"):
        return is_bot(t[1], v[0]) and is_bot(t[2], v[1])
    return False


def has_bot_entry(t, v):
    """some MapUnion inside v has an entry whose value is bottom"""
    t = lat.norm(t)
    h = t[0]
    if h == "Map":
        return any(is_bot(t[2], x) or has_bot_entry(t[2], x) for _, x in v)
    if h in ("Bot", "Top"):
        return v is not None and has_bot_entry(t[1], v[0])
    if h in ("Pair", "Dom"):
        return has_bot_entry(t[1], v[0]) or has_bot_entry(t[2], v[1])
    return False


def sprinkle(rng, t, v):
    """add bottom-valued entries to the maps inside v"""
    t = lat.norm(t)
    h = t[0]
    if h == "Map":
        d = {k: (sprinkle(rng, t[2], x) if rng.chance(1, 2) else x) for k, x in v}
        if not growable(t[1]):
            # fixed-size representation: only turn an existing value into bottom
            b = bottom_of(t[2])
            if d and b != "none" and rng.chance(1, 2):
                d[rng.choice(sorted(d))] = json.loads(json.dumps(b))
            return [[k, d[k]] for k in sorted(d)]
        b = bottom_of(t[2])
        if b != "none" and rng.chance(2, 3):
            d[rng.choice(lat.KEYS)] = json.loads(json.dumps(b))
        if lat.norm(t[2])[0] == "Map" and growable(lat.norm(t[2])[1]) and rng.chance(1, 3):
            # a non-empty inner map all of whose values are bottom
            bb = bottom_of(lat.norm(t[2])[2])
            if bb != "none":
                d[rng.choice(lat.KEYS)] = [[rng.choice(lat.KEYS), json.loads(json.dumps(bb))]]
        return [[k, d[k]] for k in sorted(d)]
    if h in ("Bot", "Top"):
        return v if v is None else [sprinkle(rng, t[1], v[0])]
    if h in ("Pair", "Dom"):
        return [sprinkle(rng, t[1], v[0]), sprinkle(rng, t[2], v[1])]
    return v


def load_corpus(prop):
    out = []
    for p in sorted(glob.glob(os.path.join(ROOT, "corpus", prop, "*.json"))):
        c = json.load(open(p))
        out += c if isinstance(c, list) else [c]
    return out


def gen_one(rng, name, size):
    sh, ta, tb, tda, tdb = parse_name4(name)
    het = (tda != ta) or (tdb != tb)
    a = lat.gen_value(rng, ta, size)
    da = lat.gen_related(rng, ta, a, size) if tda == ta else lat.gen_value(rng, tda, size)
    if ta == tb and rng.chance(1, 2):
        b = lat.gen_related(rng, tb, rng.choice([a, da]) if tda == ta else a, size)  # shared keys
    else:
        b = lat.gen_value(rng, tb, size)
    db = lat.gen_related(rng, tb, b, size) if tdb == tb else lat.gen_value(rng, tdb, size)
    r = rng.below(10)
    if r < 4:
        da = sprinkle(rng, tda, da)
    if 2 <= r < 6:
        db = sprinkle(rng, tdb, db)
    if r == 6:
        a = sprinkle(rng, ta, a)
    if r == 7:
        b = sprinkle(rng, tb, b)
    if not het:
        if rng.chance(1, 2):
            a, da = da, a
        if rng.chance(1, 2):
            b, db = db, b
    return {"k": "bim", "sh": name, "a": a, "da": da, "b": b, "db": db, "src": "rnd"}


def gen_cases(rng, names, tier, n):
    cases = [dict(c, src="corpus") for c in load_corpus("C07")]
    per = max(2, n // max(1, len(names)))
    for name in names:
        sh, ta, tb, tda, tdb = parse_name4(name)
        if tier == "thorough" and not has_pair(sh) and depth(sh) <= 1 and (tda, tdb) == (ta, tb):
            va, vb = lat.enum_values(ta, 30), lat.enum_values(tb, 30)
            if va is not None and vb is not None:
                step = max(1, len(vb) // 5)
                for a in va:
                    for da in va:
                        for j in range(0, len(vb), step):
                            b, db = vb[j], vb[(j * 7 + len(a) + len(da)) % len(vb)]
                            cases.append({"k": "bim", "sh": name, "a": a, "da": da, "b": b, "db": db, "src": "exh"})
                            # and the mirrored roles, so the second argument is swept too
                            if ta == tb:
                                cases.append({"k": "bim", "sh": name, "a": b, "da": db, "b": a, "db": da, "src": "exh"})
        for _ in range(per):
            cases.append(gen_one(rng, name, rng.choice([2, 3, 3, 4])))
    return cases


def case_term(case, res):
    if case.get("k") == "ght":
        return ght_term(case, res)
    if "ab" not in res:
        return 3  # panic / hang / crash: the model never panics
    sh, ta, tb = parse_name(case["sh"])
    cs = coq_shape(sh, ta, tb)
    to = out_ty(sh, ta, tb)
    ov = lambda k: lat.coq_val(to, res[k])
    obs = "(Build_bobs %s %s %s %s %s %s %s %s %s %s)" % (
        cs, ov("ab"), ov("dab"), ov("adb"), ov("l"), ov("ml"), ov("r"), ov("mr"),
        g_bool(res["eq_l"]), g_bool(res["eq_r"]))
    return "(bchk %s %s %s %s %s %s)" % (cs, lat.coq_val(ta, case["a"]), lat.coq_val(ta, case["da"]),
                                        lat.coq_val(tb, case["b"]), lat.coq_val(tb, case["db"]), obs)


def shrink(case):
    if case.get("k") == "ght":
        yield from shrink_ght(case)
        return
    sh, ta, tb, tda, tdb = parse_name4(case["sh"])
    for f, t in (("db", tdb), ("da", tda), ("b", tb), ("a", ta)):
        for sv in lat.shrink_value(t, case[f]):
            c2 = dict(case)
            c2[f] = sv
            c2["src"] = "shrunk"
            yield c2


def distribution(cases, results):
    d = {"per_shape": {}, "per_instance": {}, "src": {}, "output_nonempty": 0, "delta_a_changes_output": 0,
         "delta_b_changes_output": 0, "bottom_valued_entry_in_a_delta": 0, "bottom_valued_entry_in_b_delta": 0,
         "eq_l_false": 0, "eq_r_false": 0, "panics": 0}
    for c, r in zip(cases, results):
        if c.get("k") == "ght":
            key = "ght:%s:%s" % (c["bim"], c["shape"])
            d["per_shape"]["ght:" + c["bim"]] = d["per_shape"].get("ght:" + c["bim"], 0) + 1
            d["per_instance"][key] = d["per_instance"].get(key, 0) + 1
            d["src"][c.get("src", "?")] = d["src"].get(c.get("src", "?"), 0) + 1
            if "ab" not in r:
                d["panics"] += 1
                continue
            d["output_nonempty"] += 1 if r["ab"] else 0
            d["delta_a_changes_output"] += 1 if r["l"] != r["ab"] else 0
            d["delta_b_changes_output"] += 1 if r["r"] != r["ab"] else 0
            d["eq_l_false"] += 0 if r["eq_l"] else 1
            d["eq_r_false"] += 0 if r["eq_r"] else 1
            continue
        sh = c["sh"].split("|")[0]
        d["per_shape"][sh] = d["per_shape"].get(sh, 0) + 1
        d["per_instance"][c["sh"]] = d["per_instance"].get(c["sh"], 0) + 1
        d["src"][c.get("src", "?")] = d["src"].get(c.get("src", "?"), 0) + 1
        if "ab" not in r:
            d["panics"] += 1
            continue
        _, ta, tb, tda, tdb = parse_name4(c["sh"])
        d["output_nonempty"] += 1 if r["ab"] not in ([], None) else 0
        d["delta_a_changes_output"] += 1 if r["l"] != r["ab"] else 0
        d["delta_b_changes_output"] += 1 if r["r"] != r["ab"] else 0
        d["bottom_valued_entry_in_a_delta"] += 1 if has_bot_entry(tda, c["da"]) else 0
        d["bottom_valued_entry_in_b_delta"] += 1 if has_bot_entry(tdb, c["db"]) else 0
        d["eq_l_false"] += 0 if r["eq_l"] else 1
        d["eq_r_false"] += 0 if r["eq_r"] else 1
    return d


# ------------------------------------------------------------------ GHT bimorphisms
def g_rows(rows):
    return "[" + "; ".join("[" + "; ".join("%d" % x for x in r) + "]" for r in rows) + "]"


def gen_rows(rng, arity, nk, n):
    out = []
    for _ in range(n):
        r = [rng.below(3) for _ in range(nk)] + [rng.choice([0, 1, 2, 5, 9]) for _ in range(arity - nk)]
        if r not in out:
            out.append(r)
    return out


def perturb_rows(rng, rows, arity, nk):
    rows = [list(r) for r in rows]
    r = rng.below(4)
    if r == 0 or not rows:
        return rows + [x for x in gen_rows(rng, arity, nk, rng.range(1, 2)) if x not in rows]
    if r == 1:
        # same key, another value: lands in an existing leaf
        base = list(rng.choice(rows))
        if arity > nk:
            base[-1] = rng.choice([0, 1, 2, 5, 9])
        return rows + ([base] if base not in rows else [])
    if r == 2:
        return rows[:-1]
    return gen_rows(rng, arity, nk, rng.below(4))


def gen_ght_cases(rng, shapes, tier, n):
    cases = []
    per = max(2, n // max(1, 2 * len(shapes)))
    for sh in shapes:
        for bim in ("join", "cart"):
            for _ in range(per):
                nk, ar = sh["nk"], sh["arity"]
                a = gen_rows(rng, ar, nk, rng.below(5))
                da = perturb_rows(rng, a, ar, nk)
                b = perturb_rows(rng, rng.choice([a, da]), ar, nk) if rng.chance(2, 3) else gen_rows(rng, ar, nk, rng.below(5))
                db = perturb_rows(rng, b, ar, nk)
                if rng.chance(1, 2):
                    a, da = da, a
                if rng.chance(1, 2):
                    b, db = db, b
                cases.append({"k": "ght", "shape": sh["shape"], "bim": bim, "nk": nk, "arity": ar, "nko": sh["nko"],
                              "a": a, "da": da, "b": b, "db": db, "src": "rnd"})
    return cases


def ght_term(case, res):
    if "ab" not in res:
        return 3
    g = "GDeepJoin" if case["bim"] == "join" else "(GCartP %d%%nat)" % case["nko"]
    obs = "(Build_gobs %s %s %s %s %s %s %s %s %s)" % tuple(
        [g_rows(res[k]) for k in ("ab", "dab", "adb", "l", "ml", "r", "mr")] + [g_bool(res["eq_l"]), g_bool(res["eq_r"])])
    return "(gbchk %d%%nat %s %s %s %s %s %s)" % (case["nk"], g, g_rows(case["a"]), g_rows(case["da"]),
                                                  g_rows(case["b"]), g_rows(case["db"]), obs)


def shrink_ght(case):
    for f in ("db", "da", "b", "a"):
        rows = case[f]
        for i in range(len(rows)):
            c2 = dict(case)
            c2[f] = rows[:i] + rows[i + 1:]
            c2["src"] = "shrunk"
            yield c2
        for i, r in enumerate(rows):
            for j, x in enumerate(r):
                if x > 0:
                    r2 = list(r)
                    r2[j] = 0
                    if r2 not in rows:
                        c2 = dict(case)
                        c2[f] = rows[:i] + [r2] + rows[i + 1:]
                        c2["src"] = "shrunk"
                        yield c2
