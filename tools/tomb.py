"""Tombstone lattices (engine E1, property C05): case generation, Gallina printing, shrinking.

case = {"kind": "set"|"mapmax"|"mapset", "states": [[live, tomb], ...], "tree": idx | [l, r]}
  live: [item..] for sets, [[key, value]..] for maps (value: u8 / [u8..]); tomb: [item..]
states[0] is the receiving replica of the history, states[1:] are merged into it in order;
"tree" is a merge tree whose leaves are indices into states (every index occurs at least once).
Items / keys come from {0..5}."""
import glob
import json
import os

from tools.vlib import ROOT, g_bool, g_cmp

DOMAIN = [0, 1, 2, 3, 4, 5]
KINDS = ["set", "mapmax", "mapset"]
MAX_POOL = [0, 0, 1, 2, 2, 7, 255]
BACKENDS = ["hash", "roaring", "fst"]


# ------------------------------------------------------------------ generation
def gen_val(rng, kind):
    if kind == "mapmax":
        return rng.choice(MAX_POOL)
    n = rng.below(3)
    return sorted(rng.sample([0, 1, 2], n))


def gen_state(rng, kind, wf=True, size=3):
    nl = rng.below(size + 1)
    nt = rng.below(size + 1)
    items = rng.shuffle(DOMAIN)
    live_keys = sorted(items[:nl])
    if wf:
        tomb = sorted(items[nl:nl + nt])
    else:
        # at least one item both live and tombstoned
        tomb = sorted(set(rng.sample(DOMAIN, nt) + ([live_keys[0]] if live_keys else [])))
    if kind == "set":
        live = live_keys
    else:
        live = [[k, gen_val(rng, kind)] for k in live_keys]
    return [live, tomb]


def keys_of(kind, live):
    return list(live) if kind == "set" else [kv[0] for kv in live]


def related_state(rng, kind, base, wf=True):
    """a state close to `base` (so that comparisons come out Lt / Gt / Eq as well as None)"""
    live, tomb = json.loads(json.dumps(base))
    r = rng.below(6)
    ks = keys_of(kind, live)
    if r == 0:
        pass
    elif r == 1 and tomb:
        tomb.remove(rng.choice(tomb))
    elif r == 2:
        x = rng.choice(DOMAIN)
        if x not in tomb:
            tomb = sorted(tomb + [x])
        if wf and x in ks:
            live = [e for e in live if (e if kind == "set" else e[0]) != x]
    elif r == 3 and live:
        live.pop(rng.below(len(live)))
    elif r == 4:
        x = rng.choice(DOMAIN)
        if x not in ks and (not wf or x not in tomb):
            live = sorted(live + [x]) if kind == "set" else sorted(live + [[x, gen_val(rng, kind)]])
    elif kind != "set" and live:
        i = rng.below(len(live))
        live[i] = [live[i][0], gen_val(rng, kind)]
    return [live, tomb]


def grow_low_key(rng, kind, base):
    """a delta equal to `base` except that the value at one of the lower keys grows (the later
    keys are covered by the receiver): exercises the accumulation of the changed flag"""
    live, tomb = json.loads(json.dumps(base))
    if kind == "set" or not live:
        return [live, tomb]
    i = rng.below(max(1, len(live) - 1))
    k, v = live[i]
    if kind == "mapmax":
        v = min(255, v + 1 + rng.below(3))
    else:
        v = sorted(set(v) | {rng.choice([0, 1, 2, 3])})
    live[i] = [k, v]
    if rng.chance(1, 3) and len(live) > 1:
        live.pop(rng.below(len(live)))
    return [live, []] if rng.chance(1, 2) else [live, tomb]


def py_merge(kind, a, b):
    """generator-side approximation of the merge (steers the generator only; never an oracle)"""
    ta, tb = set(a[1]), set(b[1])
    t = sorted(ta | tb)
    if kind == "set":
        return [sorted((set(a[0]) | set(b[0])) - set(t)), t]
    d = {k: v for k, v in a[0]}
    for k, v in b[0]:
        if k in d:
            d[k] = max(d[k], v) if kind == "mapmax" else sorted(set(d[k]) | set(v))
        else:
            d[k] = v
    return [[[k, d[k]] for k in sorted(d) if k not in t], t]


def gen_tree(rng, idxs):
    if len(idxs) == 1:
        return idxs[0]
    cut = rng.range(1, len(idxs) - 1)
    return [gen_tree(rng, idxs[:cut]), gen_tree(rng, idxs[cut:])]


def gen_case(rng, tier):
    kind = rng.choice(KINDS)
    nmax = 6 if tier == "quick" else 9
    n = rng.range(2, nmax)
    wf_case = not rng.chance(1, 8)
    states = [gen_state(rng, kind, True) if rng.chance(3, 4) else [[], []]]
    acc = states[0]
    for _ in range(n - 1):
        wf = wf_case or rng.chance(1, 2)
        r = rng.below(10)
        if r < 4:
            s = gen_state(rng, kind, wf)
        elif r < 7:
            s = related_state(rng, kind, acc, wf)
        elif r < 8:
            s = related_state(rng, kind, rng.choice(states), wf)
        elif r < 9:
            s = grow_low_key(rng, kind, acc) if kind != "set" else related_state(rng, kind, acc, wf)
        else:
            # a pure delete / a pure insert, as the repo's tests do them
            x = rng.choice(DOMAIN)
            if rng.chance(1, 2):
                s = [[], [x]]
            else:
                s = [[x] if kind == "set" else [[x, gen_val(rng, kind)]], []]
        states.append(s)
        acc = py_merge(kind, acc, s)
    idxs = list(range(n)) + [rng.below(n) for _ in range(rng.below(3))]
    idxs = rng.shuffle(idxs)
    return {"kind": kind, "states": states, "tree": gen_tree(rng, idxs)}


def corpus_cases():
    out = []
    for p in sorted(glob.glob(os.path.join(ROOT, "corpus", "C05", "*.json"))):
        d = json.load(open(p))
        out += d["cases"] if "cases" in d else [d["case"] if "case" in d else d]
    return out


def gen_cases(rng, tier, n):
    cases = corpus_cases()
    while len(cases) < n:
        cases.append(gen_case(rng, tier))
    return cases


# ------------------------------------------------------------------ Gallina printing
def g_nlist(xs):
    return "[" + "; ".join("%d" % x for x in xs) + "]"


def g_live(kind, live):
    if kind == "set":
        return g_nlist(live)
    if kind == "mapmax":
        return "[" + "; ".join("(%d, %d)" % (k, v) for k, v in live) + "]"
    return "[" + "; ".join("(%d, %s)" % (k, g_nlist(v)) for k, v in live) + "]"


def g_state(kind, s):
    return "(%s, %s)" % (g_live(kind, s[0]), g_nlist(s[1]))


def g_tree(kind, states, t):
    if isinstance(t, int):
        return "(Leaf %s)" % g_state(kind, states[t])
    return "(Node %s %s)" % (g_tree(kind, states, t[0]), g_tree(kind, states, t[1]))


def g_step(kind, st):
    if st.get("has_cmp"):
        c = "(Some %s)" % g_cmp(st["cmp"])
        e = "(Some %s)" % g_bool(st["eq"])
    else:
        c = e = "None"
    return "(SObs %s %s %s %s %s %s)" % (g_live(kind, st["live"]), g_nlist(st["tomb"]), g_bool(st["ch"]),
                                         g_bool(st["bot"]), c, e)


CHK = {"set": "chk_set",
       "mapmax": "chk_map (max_ops (Some 255)) N.eqb",
       "mapset": "chk_map set_ops seteqb"}


def failed(res):
    return any(k in res for k in ("panic", "hang", "crash", "garbled", "bad_case", "bad_kind"))


def to_coq(case, res):
    if failed(res) or any(failed(res.get(b, {"panic": 1})) for b in BACKENDS):
        return 3
    kind = case["kind"]
    states = case["states"]
    step_sources = BACKENDS + (["hash_bt"] if "hash_bt" in res else [])
    steps = "[" + "; ".join("[" + "; ".join(g_step(kind, st) for st in res[b]["steps"]) + "]"
                            for b in step_sources) + "]"
    trees = "[" + "; ".join(g_state(kind, res[b]["tree"]) for b in BACKENDS) + "]"
    return "%s %s [%s] %s %s %s" % (CHK[kind], g_state(kind, states[0]),
                                    "; ".join(g_state(kind, s) for s in states[1:]),
                                    g_tree(kind, states, case["tree"]), steps, trees)


# ------------------------------------------------------------------ shrinking
def tree_leaves(t):
    return [t] if isinstance(t, int) else tree_leaves(t[0]) + tree_leaves(t[1])


def comb_tree(n):
    t = 0
    for i in range(1, n):
        t = [t, i]
    return t


def drop_leaf(t, i):
    """remove index i from the tree and renumber the indices above it; None if nothing is left"""
    if isinstance(t, int):
        if t == i:
            return None
        return t - 1 if t > i else t
    l, r = drop_leaf(t[0], i), drop_leaf(t[1], i)
    if l is None:
        return r
    if r is None:
        return l
    return [l, r]


def shrink(case):
    kind, states, tree = case["kind"], case["states"], case["tree"]
    n = len(states)
    # drop a replica state
    if n > 2:
        for i in range(n - 1, -1, -1):
            t = drop_leaf(tree, i)
            if t is not None:
                yield {"kind": kind, "states": states[:i] + states[i + 1:], "tree": t}
    # the plain left comb
    if tree != comb_tree(n):
        yield {"kind": kind, "states": states, "tree": comb_tree(n)}
    # drop an item / tombstone / simplify a value
    for i, (live, tomb) in enumerate(states):
        for j in range(len(live)):
            s2 = [live[:j] + live[j + 1:], tomb]
            yield {"kind": kind, "states": states[:i] + [s2] + states[i + 1:], "tree": tree}
        for j in range(len(tomb)):
            s2 = [live, tomb[:j] + tomb[j + 1:]]
            yield {"kind": kind, "states": states[:i] + [s2] + states[i + 1:], "tree": tree}
        if kind != "set":
            for j, (k, v) in enumerate(live):
                smaller = ([0] if v else []) if kind == "mapmax" else ([v[:-1]] if v else [])
                for v2 in smaller:
                    s2 = [live[:j] + [[k, v2]] + live[j + 1:], tomb]
                    yield {"kind": kind, "states": states[:i] + [s2] + states[i + 1:], "tree": tree}


# ------------------------------------------------------------------ statistics
def is_wf(kind, s):
    return not (set(keys_of(kind, s[0])) & set(s[1]))


def resurrect_opportunity(case):
    """some item is live in one replica state and tombstoned in another"""
    kind = case["kind"]
    lives = set(x for s in case["states"] for x in keys_of(kind, s[0]))
    tombs = set(x for s in case["states"] for x in s[1])
    return bool(lives & tombs)


def nontrivial(case, res):
    if failed(res):
        return True
    return len(case["states"]) >= 2 and resurrect_opportunity(case) and any(st["ch"] for st in res["hash"]["steps"])


def distribution(cases, results):
    d = {"kinds": {}, "n_states": {}, "all_wf": 0, "resurrect_opportunity": 0, "cmp": {}, "changed_steps": 0,
         "unchanged_steps": 0, "tree_leaves": {}}
    for c, r in zip(cases, results):
        d["kinds"][c["kind"]] = d["kinds"].get(c["kind"], 0) + 1
        k = str(len(c["states"]))
        d["n_states"][k] = d["n_states"].get(k, 0) + 1
        d["all_wf"] += all(is_wf(c["kind"], s) for s in c["states"])
        d["resurrect_opportunity"] += resurrect_opportunity(c)
        k = str(len(tree_leaves(c["tree"])))
        d["tree_leaves"][k] = d["tree_leaves"].get(k, 0) + 1
        if failed(r) or "hash" not in r or failed(r["hash"]):
            continue
        for st in r["hash"]["steps"]:
            key = str(st.get("cmp"))
            d["cmp"][key] = d["cmp"].get(key, 0) + 1
            if st["ch"]:
                d["changed_steps"] += 1
            else:
                d["unchanged_steps"] += 1
    return d


def describe(case, res):
    return {"case": case, "impl": res}
