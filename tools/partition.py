"""Partition engine (C18, C19, C20, C42): DFIR program generator, Gallina printers for flat /
partitioned graphs, regeneration of coq/theories/Gen/OpsTable.v, hash-iteration source scan."""
import glob
import hashlib
import json
import os
import re

from tools import vlib

ROOT = vlib.ROOT
REPO = vlib.REPO

# ------------------------------------------------------------------ operator vocabulary

# name -> (template with {k} for a per-node unique constant, takes_args)
UNARY = {
    "map": "map(|x| {{ {r}x + {k} }})",
    "filter": "filter(|x| {{ {r}*x != {k} }})",
    "inspect": "inspect(|x| {{ {r}println!(\"{k} {{:?}}\", x) }})",
    "flat_map": "flat_map(|x| {{ {r}[x, {k}] }})",
    "filter_map": "filter_map(|x| {{ {r}if x > {k} {{ Some(x) }} else {{ None }} }})",
    "fold": "fold(|| {k}, |a, x| {{ {r}*a += x }})",
    "reduce": "reduce(|a, x| {{ {r}*a += x + {k} }})",
    "sort": "sort()",
    "unique": "unique()",
    "identity": "identity()",
    "enumerate": "enumerate()",
    "persist": "persist::<'static>()",
    "fold_tick": "fold::<'tick>(|| {k}, |a, x| {{ {r}*a += x }})",
    "sort_by_key": "sort_by_key(|x| {{ {r}*x + {k} }})",
    "defer_tick": "defer_tick()",
    "defer_tick_lazy": "defer_tick_lazy()",
    "tee1": "tee()",
    "union1": "union()",
}
UNARY_PLAIN = ["map", "filter", "inspect", "flat_map", "filter_map", "fold", "reduce", "sort", "unique",
               "identity", "enumerate", "persist", "fold_tick", "sort_by_key", "tee1", "union1"]
ARG_OPS = {"map", "filter", "inspect", "flat_map", "filter_map", "fold", "reduce", "fold_tick", "sort_by_key",
           "for_each", "source_iter"}
BINARY = {
    "join": ("join()", ["0", "1"]),
    "cross_join": ("cross_join()", ["0", "1"]),
    "anti_join": ("anti_join()", ["pos", "neg"]),
    "difference": ("difference()", ["pos", "neg"]),
    "zip": ("zip()", ["0", "1"]),
    "chain": ("chain()", ["0", "1"]),
    "join_multiset": ("join_multiset()", ["0", "1"]),
    "cross_singleton": ("cross_singleton()", ["input", "single"]),
}
SINKS = {"for_each": "for_each(|x| {{ {r}println!(\"{k} {{:?}}\", x) }})", "null": "null()"}
HOFFS = ["handoff", "singleton", "optional"]


class Prog:
    """graph-level description of a program; printed to surface syntax by `render`"""

    def __init__(self):
        self.nodes = []  # dict(op, text, loop, refs)
        self.edges = []  # (src, sport, dst, dport) ports are None or str
        self.loops = []  # parent index or None

    def add(self, op, text, loop):
        self.nodes.append({"op": op, "text": text, "loop": loop})
        return len(self.nodes) - 1


def _text(op, k):
    """deferred: the text is produced by node_text once the references are known"""
    return (op, k)


def node_text(nd):
    t = nd["text"]
    if isinstance(t, str):
        return t
    op, k = t
    tpl = UNARY.get(op) or SINKS.get(op)
    r = "".join("let _ = %s; " % x for x in nd.get("refs", []))
    return tpl.format(k=k, r=r)


def gen_graph(rng, size, feat):
    """feat: dict of feature probabilities (num/den over 100)"""
    p = Prog()
    stubs = []  # (node, sport, loop)
    pending_unions = []  # union node indices with a reserved back input
    hoffs = []  # (node index, mode) referencable handoffs
    nsrc = rng.range(1, max(1, min(3, size // 3 + 1)))
    for _ in range(nsrc):
        k = len(p.nodes)
        n = p.add("source_iter", "source_iter(0..%d)" % (k + 2), None)
        stubs.append((n, None, None))
    steps = 0
    while steps < size and stubs:
        steps += 1
        i = rng.below(len(stubs))
        n, sp, lp = stubs[i]
        r = rng.below(100)
        if pending_unions and rng.below(100) < feat.get("close", 22):
            r = 72
        if r < 34:  # unary
            if rng.below(100) < feat.get("defer", 8):
                op = rng.choice(["defer_tick", "defer_tick_lazy"])
            else:
                op = rng.choice(UNARY_PLAIN)
            m = p.add(op, _text(op, len(p.nodes)), lp)
            p.edges.append((n, sp, m, None))
            stubs[i] = (m, None, lp)
        elif r < 46:  # tee
            m = p.add("tee", "tee()", lp)
            p.edges.append((n, sp, m, None))
            k = rng.range(2, 3)
            stubs[i] = (m, None, lp)
            for _ in range(k - 1):
                stubs.append((m, None, lp))
        elif r < 58:  # union of 2..3 same-loop stubs (maybe reserving a back input)
            same = [j for j, s in enumerate(stubs) if s[2] == lp and j != i]
            m = p.add("union", "union()", lp)
            p.edges.append((n, sp, m, None))
            take = rng.sample(same, min(len(same), rng.range(0, 2)))
            for j in take:
                p.edges.append((stubs[j][0], stubs[j][1], m, None))
            for j in sorted(take + [i], reverse=True):
                stubs.pop(j)
            stubs.append((m, None, lp))
            if rng.below(100) < feat.get("back", 45):
                pending_unions.append(m)
        elif r < 70:  # binary
            same = [j for j, s in enumerate(stubs) if s[2] == lp and j != i]
            if not same:
                continue
            j = rng.choice(same)
            op = rng.choice(sorted(BINARY))
            text, ports = BINARY[op]
            m = p.add(op, text, lp)
            a, b = (i, j) if rng.below(2) else (j, i)
            p.edges.append((stubs[a][0], stubs[a][1], m, ports[0]))
            p.edges.append((stubs[b][0], stubs[b][1], m, ports[1]))
            for x in sorted([i, j], reverse=True):
                stubs.pop(x)
            stubs.append((m, None, lp))
        elif r < 76 and pending_unions:  # close a back edge into an earlier union
            cands = [u for u in pending_unions if p.nodes[u]["loop"] == lp]
            if not cands:
                continue
            u = rng.choice(cands)
            pending_unions.remove(u)
            q = rng.below(100)
            cur, cursp = n, sp
            if q < feat.get("back_defer", 55):
                op = rng.choice(["defer_tick", "defer_tick_lazy"])
                m = p.add(op, _text(op, len(p.nodes)), lp)
                p.edges.append((cur, cursp, m, None))
                cur, cursp = m, None
            elif q < 80:
                op = rng.choice(["map", "filter", "identity"])
                m = p.add(op, _text(op, len(p.nodes)), lp)
                p.edges.append((cur, cursp, m, None))
                cur, cursp = m, None
            p.edges.append((cur, cursp, u, None))
            stubs.pop(i)
        elif r < 84 and feat.get("refs", 50) > rng.below(100):  # referencable handoff
            kind = rng.choice(HOFFS)
            m = p.add(kind, kind + "()", lp)
            p.edges.append((n, sp, m, None))
            mode = rng.choice(["plain", "plain", "grouped", "mut"])
            hoffs.append((m, mode))
            if rng.below(100) < 50:
                stubs[i] = (m, None, lp)
            else:
                stubs.pop(i)
        elif r < 90 and feat.get("loops", 40) > rng.below(100):  # enter / leave a loop
            if lp is not None and rng.below(100) < 50:
                parent = p.loops[lp]
                m = p.add("all_iterations", "all_iterations()", parent)
                p.edges.append((n, sp, m, None))
                stubs[i] = (m, None, parent)
            else:
                kids = [j for j, par in enumerate(p.loops) if par == lp]
                if kids and rng.below(100) < 60:
                    child = rng.choice(kids)
                else:
                    p.loops.append(lp)
                    child = len(p.loops) - 1
                op = rng.choice(["batch", "batch", "batch_lazy"]) if lp is None else "batch"
                m = p.add(op, op + "()", child)
                p.edges.append((n, sp, m, None))
                stubs[i] = (m, None, child)
        else:  # sink
            op = rng.choice(["for_each", "null"])
            m = p.add(op, _text(op, len(p.nodes)), lp)
            p.edges.append((n, sp, m, None))
            stubs.pop(i)
    planted_access = None
    if rng.below(100) < feat.get("acc", 0):
        # planted access-order dependency between two SHARED readers of one fresh singleton, against the
        # direction of a same-tick pipe path: `up` (higher group) feeds `down` (lower group), so the
        # access-order edge down -> up closes a cycle (or, without a path, merely orders the two subgraphs)
        args_top = [i for i, nd in enumerate(p.nodes)
                    if nd["op"] in ARG_OPS and nd["op"] != "source_iter" and nd["loop"] is None]
        succ = {}
        for (a, _sp, b, _dp) in p.edges:
            if p.nodes[b]["op"] not in ("defer_tick", "defer_tick_lazy"):
                succ.setdefault(a, []).append(b)
        pairs_ = []
        for u in args_top:
            seen, todo = set(), [u]
            while todo:
                x = todo.pop()
                for y in succ.get(x, []):
                    if y not in seen:
                        seen.add(y)
                        todo.append(y)
            pairs_ += [(u, d) for d in args_top if d in seen and d != u]
        if pairs_ or len(args_top) >= 2:
            if pairs_ and rng.below(100) < 75:
                up, down = rng.choice(pairs_)
            else:
                up, down = rng.sample(args_top, 2)
            planted_access = (up, down)
    for (n, sp, lp) in stubs:
        op = rng.choice(["for_each", "null"])
        m = p.add(op, _text(op, len(p.nodes)), lp)
        p.edges.append((n, sp, m, None))
    if rng.below(100) < feat.get("multi", 0):
        # several referenced singletons; one reader (declared now, i.e. BEFORE the writers) sits in a later
        # access group of all of them, independent writers in the earlier groups are declared afterwards
        k = rng.range(2, 3)
        hs = []
        for _ in range(k):
            src = p.add("source_iter", "source_iter(0..%d)" % (len(p.nodes) + 2), None)
            h = p.add(rng.choice(["singleton", "singleton", "optional"]), None, None)
            p.nodes[h]["text"] = p.nodes[h]["op"] + "()"
            p.edges.append((src, None, h, None))
            hs.append(h)
        rsrc = p.add("source_iter", "source_iter(0..%d)" % (len(p.nodes) + 2), None)
        rd = p.add("inspect", _text("inspect", len(p.nodes)), None)
        snk = p.add("null", "null()", None)
        p.edges.append((rsrc, None, rd, None))
        p.edges.append((rd, None, snk, None))
        p.nodes[rd]["refs"] = ["#{1} n%d" % h for h in rng.shuffle(hs)]
        for h in rng.shuffle(hs):
            wsrc = p.add("source_iter", "source_iter(0..%d)" % (len(p.nodes) + 2), None)
            w = p.add("for_each", _text("for_each", len(p.nodes)), None)
            p.edges.append((wsrc, None, w, None))
            p.nodes[w]["refs"] = [("#{0} mut n%d" if rng.below(3) == 0 else "#{0} n%d") % h]
    if rng.below(100) < feat.get("consumer_first", 0):
        src = p.add("source_iter", "source_iter(0..%d)" % (len(p.nodes) + 2), None)
        h = p.add(rng.choice(["handoff", "optional", "singleton"]), None, None)
        p.nodes[h]["text"] = p.nodes[h]["op"] + "()"
        p.edges.append((src, None, h, None))
        c = p.add(rng.choice(["for_each", "null"]), _text(rng.choice(["for_each"]), len(p.nodes)), None)
        if p.nodes[c]["op"] == "null":
            p.nodes[c]["text"] = "null()"
        p.edges.append((h, None, c, None))
        for _ in range(rng.range(2, 3)):
            bs = p.add("source_iter", "source_iter(0..%d)" % (len(p.nodes) + 2), None)
            b = p.add("for_each", _text("for_each", len(p.nodes)), None)
            p.edges.append((bs, None, b, None))
            p.nodes[b]["refs"] = ["#n%d" % h]
    if planted_access:
        up, down = planted_access
        src = p.add("source_iter", "source_iter(0..%d)" % (len(p.nodes) + 2), None)
        h = p.add("singleton", "singleton()", None)
        p.edges.append((src, None, h, None))
        lo = rng.range(0, 1)
        p.nodes[up].setdefault("refs", []).append("#{%d} n%d" % (lo + 1, h))
        p.nodes[down].setdefault("refs", []).append("#{%d} n%d" % (lo, h))
        if rng.below(100) < 30 and len(p.nodes) > 3:
            third = rng.choice([i for i, nd in enumerate(p.nodes) if nd["op"] in ARG_OPS and nd["op"] != "source_iter"] or [up])
            if third not in (up, down):
                p.nodes[third].setdefault("refs", []).append("#{%d} n%d" % (lo + 2, h))
    # references: arg-bearing operators mention handoffs
    argnodes = [i for i, nd in enumerate(p.nodes) if nd["op"] in ARG_OPS and nd["op"] != "source_iter"]
    groups_used = {}
    pairs = set()
    for (h, mode) in hoffs:
        if not argnodes:
            break
        k = rng.range(1, 3)
        for _ in range(k):
            a = rng.choice(argnodes)
            if (a, h) in pairs and rng.below(100) < 90:
                continue
            pairs.add((a, h))
            if mode == "plain":
                ref = "#n%d" % h
            elif mode == "grouped":
                g = rng.range(0, 2)
                ref = "#{%d} n%d" % (g, h)
            else:
                g = groups_used.get(h, 0)
                groups_used[h] = g + 1
                ref = ("#{%d} mut n%d" if rng.below(2) else "#{%d} n%d") % (g, h)
            if rng.below(100) < feat.get("bad_ref", 3):
                ref = "#mut n%d" % h
            p.nodes[a].setdefault("refs", []).append(ref)
    return p


def render(rng, p, inline=60):
    """surface syntax text.  Maximal linear chains are printed inline with probability `inline`%."""
    n = len(p.nodes)
    outs = {i: [] for i in range(n)}
    ins = {i: [] for i in range(n)}
    for e in p.edges:
        outs[e[0]].append(e)
        ins[e[2]].append(e)
    # statements per loop context
    stm = {None: []}
    for i in range(len(p.loops)):
        stm[i] = []
    declared = set()
    used_edges = set()
    order = list(range(n))
    for i in order:
        if i in declared:
            continue
        nd = p.nodes[i]
        chain = [i]
        declared.add(i)
        # extend inline along single unported edges within the same loop
        cur = i
        while rng.below(100) < inline and p.nodes[cur]["op"] not in HOFFS:
            es = [e for e in outs[cur] if e not in used_edges]
            if len(outs[cur]) != 1 or not es:
                break
            e = es[0]
            nxt = e[2]
            if nxt in declared or nxt <= cur or p.nodes[nxt]["loop"] != nd["loop"] or len(ins[nxt]) != 1:
                break
            if e[1] is not None or e[3] is not None:
                break
            if p.nodes[nxt]["op"] in HOFFS:
                break  # keep referencable handoffs named
            used_edges.add(e)
            chain.append(nxt)
            declared.add(nxt)
            cur = nxt
        text = " -> ".join(node_text(p.nodes[c]) for c in chain)
        for c in chain:
            p.nodes[c]["var"] = "n%d" % chain[0]
        p.nodes[chain[0]]["chain"] = chain
        stm[nd["loop"]].append(("n%d = %s;" % (chain[0], text), chain))
    # chain ends: name refers to head input / tail output
    head_of = {}
    tail_of = {}
    for i in range(n):
        ch = p.nodes[i].get("chain")
        if ch:
            for c in ch:
                head_of[c] = ch[0]
                tail_of[c] = ch[-1]
    links = []
    for e in p.edges:
        if e in used_edges:
            continue
        s, sp, d, dp = e
        # src must be the tail of its chain and dst the head of its chain, else the chain was
        # extended only over single-in/single-out edges so this always holds
        a = "n%d" % head_of[s] + ("[%s]" % sp if sp is not None else "")
        b = ("[%s]" % dp if dp is not None else "") + "n%d" % head_of[d]
        links.append("%s -> %s;" % (a, b))
    links = rng.shuffle(links) if rng.below(100) < 50 else links

    def block(lp, indent):
        out = []
        for s, _ in stm[lp]:
            out.append(indent + s)
        for j, par in enumerate(p.loops):
            if par == lp:
                out.append(indent + "loop {")
                out += block(j, indent + "  ")
                out.append(indent + "};")
        return out

    lines = block(None, "") + links
    return "\n".join(lines)


FEATS = [
    {"name": "basic", "defer": 8, "back": 0, "refs": 0, "loops": 0},
    {"name": "cycles", "defer": 8, "back": 80, "back_defer": 45, "refs": 0, "loops": 0, "close": 45},
    {"name": "refs", "defer": 8, "back": 30, "back_defer": 60, "refs": 90, "loops": 0, "bad_ref": 3, "acc": 25, "consumer_first": 30},
    {"name": "access", "defer": 6, "back": 15, "back_defer": 60, "refs": 20, "loops": 0, "acc": 100, "multi": 40},
    {"name": "loops", "defer": 10, "back": 40, "back_defer": 75, "refs": 0, "loops": 90},
    {"name": "all", "defer": 10, "back": 50, "back_defer": 55, "refs": 60, "loops": 60, "bad_ref": 2, "acc": 15, "multi": 15, "consumer_first": 15},
]

HAND = [
    # hand-written seeds covering the known corner cases (always first in every run)
    "a = defer_tick(); a -> a;",
    "n0 = source_iter(0..1) -> singleton(); source_iter(0..5) -> map(|x| x + #{0} n0 + #{1} n0) -> null();",
    "source_iter(0..5) -> u; u = union() -> map(|x| x + 1) -> u;",
    "source_iter(0..5) -> u; u = union() -> t; t = tee(); t -> for_each(drop); t -> defer_tick() -> u;",
    "source_iter(0..5) -> u; u = union() -> t; t = tee(); t -> for_each(drop); t -> defer_tick_lazy() -> map(|x| x + 1) -> u;",
    "a = source_iter(0..3) -> tee(); a -> [0]j; a -> [1]j; j = join() -> for_each(drop);",
    "a = source_iter(0..3) -> tee(); a -> [pos]d; a -> map(|x| x) -> [neg]d; d = difference() -> for_each(drop);",
    "inp = source_iter(0..3); loop { b = inp -> batch() -> map(|x| x + 1) -> all_iterations_out; }; all_iterations_out = all_iterations() -> for_each(drop);",
    "i1 = source_iter([1]); loop { i1 -> batch() -> for_each(drop); }; i2 = source_iter([4]); loop { i2 -> batch() -> for_each(drop); };",
    "i1 = source_iter([1]); loop { a = i1 -> batch() -> u; u = union() -> t; t = tee(); t -> for_each(drop); t -> defer_tick() -> u; };",
    "i1 = source_iter([1]); loop { a = i1 -> batch(); loop { a -> batch() -> u; u = union() -> t; t = tee(); t -> for_each(drop); t -> defer_tick() -> u; }; };",
    "h = source_iter(0..1) -> fold(|| 0, |a, x| *a += x) -> singleton(); source_iter(0..5) -> map(|x| x + #h) -> for_each(drop);",
    "s = source_iter(0..5) -> tee(); s -> h; h = handoff() -> for_each(drop); s -> map(|x| x + #h.len()) -> null();",
    "s = source_iter(0..5) -> map(|x| { let _ = #h; x }) -> h; h = singleton();",
    "h = source_iter(0..1) -> optional(); source_iter(0..5) -> map(|x| { let _ = #{1} mut h; x }) -> null(); source_iter(0..2) -> for_each(|x| { let _ = #{0} h; });",
    "source_iter(0..5) -> handoff() -> handoff() -> null();",
    # a referenced handoff whose PIPE CONSUMER is declared before >= 2 shared borrowers of the default group
    "s = source_iter(0..3) -> tee(); h = s -> handoff(); h -> for_each(|x| println!(\"{:?}\", x)); s -> map(|x| { let _ = #h; x }) -> null(); s -> filter(|x| { let _ = #h; true }) -> null();",
    "h = source_iter(0..2) -> optional(); h -> null(); source_iter(0..3) -> for_each(|x| { let _ = #h; }); source_iter(0..4) -> for_each(|x| { let _ = #h; }); source_iter(0..5) -> inspect(|x| { let _ = #h; }) -> null();",
    "h = source_iter(0..2) -> fold(|| 0, |a, x| *a += x) -> singleton(); h -> for_each(drop); t = source_iter(0..3) -> tee(); t -> map(|x| { let _ = #h; x }) -> null(); t -> map(|x| { let _ = #h; x + 1 }) -> null();",
    # two referenced singletons, one later-group reader written before the two earlier-group writers
    "s1 = source_iter(0..1) -> singleton(); s2 = source_iter(0..1) -> singleton(); source_iter(0..3) -> map(|x| { let _ = #{1} s1; let _ = #{1} s2; x }) -> null(); source_iter(0..4) -> for_each(|x| { let _ = #{0} s1; }); source_iter(0..5) -> for_each(|x| { let _ = #{0} s2; });",
    "s1 = source_iter(0..1) -> optional(); s2 = source_iter(0..1) -> singleton(); s3 = source_iter(0..1) -> handoff(); r = source_iter(0..3) -> inspect(|x| { let _ = #{2} s1; let _ = #{1} s2; let _ = #{1} s3; }) -> null(); source_iter(0..4) -> for_each(|x| { let _ = #{0} mut s3; }); source_iter(0..5) -> for_each(|x| { let _ = #{0} s2; }); source_iter(0..6) -> for_each(|x| { let _ = #{1} s1; let _ = #{0} s2; });",
    # access order between two shared readers against a same-tick pipe path (cycle) / without one (order only)
    "h = source_iter(0..1) -> singleton(); source_iter(0..5) -> map(|x| { let _ = #{1} h; x }) -> map(|x| { let _ = #{0} h; x }) -> null();",
    "h = source_iter(0..1) -> singleton(); source_iter(0..5) -> for_each(|x| { let _ = #{1} h; }); source_iter(0..6) -> for_each(|x| { let _ = #{0} h; });",
    "source_iter(0..5) -> union() -> tee() -> null();",
    "i1 = source_iter([1]); i2 = source_iter([2]); loop { i1 -> batch() -> for_each(drop); i2 -> batch() -> map(|x| x + #s) -> for_each(drop); }; s = source_iter([5]) -> fold(|| 0, |a, x| *a += x) -> singleton();",
]


def gen_programs(rng, tier, n, corpus=None):
    """list of cases {"k": kind placeholder, "src": text, "feat": name, "size": int};
    the minimised past disagreements of corpus/<corpus>/*.json come first, then the hand-written seeds"""
    out = []
    if corpus:
        for path in sorted(glob.glob(os.path.join(ROOT, "corpus", corpus, "*.json"))):
            try:
                c = json.load(open(path))
            except Exception:
                continue
            if isinstance(c, dict) and "src" in c:
                out.append({"src": c["src"], "feat": "corpus", "size": 0})
    out += [{"src": s, "feat": "hand", "size": 0} for s in HAND]
    maxsize = 14 if tier == "quick" else 24
    while len(out) < n:
        feat = FEATS[rng.below(len(FEATS))]
        size = rng.range(2, maxsize)
        r = rng.fork()
        p = gen_graph(r, size, feat)
        src = render(r, p, inline=rng.choice([0, 50, 80]))
        out.append({"src": src, "feat": feat["name"], "size": size})
    return out


def shrink_program(case):
    """textual shrinking: drop one statement / one chain element at a time"""
    src = case["src"]
    lines = [l for l in src.split("\n") if l.strip()]
    out = []
    for i in range(len(lines)):
        if lines[i].strip() in ("loop {", "}"):
            continue
        cand = lines[:i] + lines[i + 1:]
        c = dict(case)
        c["src"] = "\n".join(cand)
        out.append(c)
    for i, l in enumerate(lines):
        parts = l.split(" -> ")
        if len(parts) > 2:
            for j in range(1, len(parts) - 1):
                c = dict(case)
                c["src"] = "\n".join(lines[:i] + [" -> ".join(parts[:j] + parts[j + 1:])] + lines[i + 1:])
                out.append(c)
    return out


# ------------------------------------------------------------------ Gallina printing

def g_optN(x):
    return "None" if x is None else "(Some %d)" % x


def g_port(p):
    if p is None:
        return "PElided"
    if "i" in p:
        v = p["i"]
        return "(PInt %s %d)" % ("true" if v < 0 else "false", abs(v))
    return "(PPath %s)" % vlib.g_string(p["p"])


def g_delay(d):
    return "None" if d is None else "(Some D%s)" % d


def g_kind(n):
    if n["k"] == "op":
        return "(KOp %s)" % vlib.g_string(n["name"])
    if n["k"] == "hoff":
        return "(KHoff H%s)" % n["hk"]
    return "KMod"


def g_graph(d):
    """harness graph dump -> Gallina term of type `graph` (Partition.Model)"""
    nodes = []
    for n in d["nodes"]:
        refs = vlib.g_list("(mkRef %s %s %s)" % (g_optN(r["t"]), vlib.g_bool(r["m"]), g_optN(r["g"]))
                           for r in n["refs"])
        nodes.append("(mkNode %d %s %s %s %s %s)" % (n["id"], g_kind(n), g_optN(n["loop"]), refs,
                                                     g_optN(n["sg"]), g_delay(n["delay"])))
    edges = ["(mkEdge %d %d %d %s %s)" % (e["id"], e["src"], e["dst"], g_port(e["sp"]), g_port(e["dp"]))
             for e in d["edges"]]
    loops = ["(mkLoop %d %s %s)" % (l["id"], g_optN(l["parent"]), vlib.g_list("%d" % x for x in l["nodes"]))
             for l in d["loops"]]
    sgs = ["(mkSg %d %s)" % (s["id"], vlib.g_list("%d" % x for x in s["nodes"])) for s in d["subgraphs"]]
    return "(mkGraph %s %s %s %s %s)" % (vlib.g_list(nodes), vlib.g_list(edges), vlib.g_list(loops),
                                         vlib.g_list(sgs), vlib.g_list("%d" % x for x in d["toposort"]))


def parse_cycle(msg):
    """node names out of the partitioner's diagnostic: `... Cycle: ["a", "b"]`"""
    m = re.search(r"Cycle: (\[.*\])\s*$", msg, re.S)
    if not m:
        return None
    try:
        return json.loads(m.group(1))
    except Exception:
        return None


# ------------------------------------------------------------------ Gen/OpsTable.v

def optable_v(tab):
    """Gallina source of Gen/OpsTable.v from the harness `optable` result.  An operator whose
    input_delaytype_fn is not constant over the sampled ports gets `od_uniform := false`
    (the partition model then refuses the table: `table_ok` is false)."""
    lines = ["(* GENERATED by tools/partition.py from /repo/dfir_lang OPERATORS on every run. Do not edit. *)",
             "From Coq Require Import List String NArith.", "From HV Require Import Partition.Base.",
             "Import ListNotations.", "Open Scope string_scope.", "Open Scope N_scope.", "",
             "Definition ops_table : list op_desc := ["]
    rows = []
    for op in tab["ops"]:
        ds = [d for _, d in op["delays"]]
        uniform = all(x == ds[0] for x in ds)

        def rng_(r):
            lo = r["lo"] if r["lo"] is not None else 0
            hi = "None" if r["unbounded"] or r["hi"] is None else "(Some %d)" % r["hi"]
            return "(%d, %s)" % (lo, hi)
        flo = "None" if op["flo_type"] is None else "(Some F%s)" % op["flo_type"]
        rows.append("  mkOp %s %s %s %s %s %d %s %s" % (
            vlib.g_string(op["name"]), g_delay(ds[0]), vlib.g_bool(uniform),
            rng_(op["hard_inn"]), rng_(op["hard_out"]), op["num_args"], flo,
            vlib.g_bool(op["is_external_input"])))
    lines.append(";\n".join(rows))
    lines.append("].")
    lines.append("")
    return "\n".join(lines)


def regen_optable(ctx, binary):
    tab = vlib.run_harness(ctx, binary, [{"k": "optable"}], name="optable")[0]
    if "ops" not in tab:
        raise RuntimeError("optable dump failed: %s" % str(tab)[:300])
    src = optable_v(tab)
    path = os.path.join(vlib.COQ, "theories", "Gen", "OpsTable.v")
    os.makedirs(os.path.dirname(path), exist_ok=True)
    old = open(path).read() if os.path.exists(path) else None
    changed = old != src
    if changed:
        with open(path, "w") as f:
            f.write(src)
    return tab, changed


# ------------------------------------------------------------------ hash-iteration source scan (C42)

SCAN_GLOBS = ["dfir_lang/src/graph/*.rs", "dfir_lang/src/*.rs"]
_ITER = r"(?:\.iter\(\)|\.iter_mut\(\)|\.into_iter\(\)|\.keys\(\)|\.values\(\)|\.values_mut\(\)|\.drain\(|\.into_keys\(\)|\.into_values\(\)|\.retain\()"


def scan_hash_iteration():
    """every place in dfir_lang's graph code where a std HashMap/HashSet is *iterated* (as opposed
    to keyed access).  Heuristic but conservative.  Pass 1 (all files): type aliases whose right-hand
    side mentions HashMap/HashSet (transitively), and functions whose return type is such a type.
    Pass 2 (per file, outside #[cfg(test)] modules): identifiers/fields declared with a hash type (or
    alias) or bound to the result of such a function; every line that iterates one of them."""
    files = []
    for pat in SCAN_GLOBS:
        for path in sorted(glob.glob(os.path.join(REPO, pat))):
            src = open(path, errors="replace").read()
            cut = src.find("#[cfg(test)]")
            files.append((path, src if cut < 0 else src[:cut]))
    hash_types = {"HashMap", "HashSet"}
    changed = True
    while changed:
        changed = False
        for _, body in files:
            for m in re.finditer(r"\btype\s+(\w+)\s*(?:<[^>]*>)?\s*=\s*([^;]+);", body):
                if m.group(1) not in hash_types and re.search(r"\b(%s)\b" % "|".join(sorted(hash_types)), m.group(2)):
                    hash_types.add(m.group(1))
                    changed = True
    tyre = r"\b(?:%s)\b" % "|".join(sorted(hash_types))
    hash_fns = set()
    for _, body in files:
        for m in re.finditer(r"\bfn\s+(\w+)\s*(?:<[^>]*>)?\s*\([^)]*\)\s*->\s*([^{;]+)", body):
            if re.search(tyre, m.group(2)):
                hash_fns.add(m.group(1))
    sites = []
    for path, body in files:
        names = set()
        for m in re.finditer(r"\b(?:let\s+(?:mut\s+)?)?(\w+)\s*(?::\s*[^=;\n]*?%s|=\s*(?:std::collections::)?%s)" % (tyre, tyre), body):
            names.add(m.group(1))
        for m in re.finditer(r"\b(\w+)\s*:\s*&?(?:mut\s+)?[\w:<>, ']*%s" % tyre, body):
            names.add(m.group(1))
        for fn in hash_fns:
            for m in re.finditer(r"\blet\s+(?:mut\s+)?(\w+)\s*(?::[^=;]*)?=\s*[^;]*\b%s\s*\(" % re.escape(fn), body):
                names.add(m.group(1))
        names -= {"collections", "std", "use", "type", "Self", "self"} | hash_types
        if not names and not hash_fns:
            continue
        rel = os.path.relpath(path, REPO)
        for ln, line in enumerate(body.split("\n"), 1):
            code = line.split("//")[0]
            hit = False
            for nm in sorted(names):
                if not re.search(r"\b%s\b" % re.escape(nm), code):
                    continue
                it = re.search(r"\b%s\b[^;]*?%s" % (re.escape(nm), _ITER), code) or \
                    re.search(r"\bfor\b.*\bin\b[^{]*\b%s\b" % re.escape(nm), code)
                if it:
                    sites.append({"file": rel, "name": nm, "text": " ".join(code.split())})
                    hit = True
            if not hit:
                # direct iteration over the result of a hash-returning function
                for fn in sorted(hash_fns):
                    if re.search(r"\bfor\b.*\bin\b[^{]*\b%s\s*\(" % re.escape(fn), code) or \
                            re.search(r"\b%s\s*\([^)]*\)\s*%s" % (re.escape(fn), _ITER), code):
                        sites.append({"file": rel, "name": fn + "()", "text": " ".join(code.split())})
    return sites


def sha(s):
    return hashlib.sha1(s.encode()).hexdigest()
